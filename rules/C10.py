"""C10 multipart/form-data decodes to exactly the submitted fields and files.
Decides (thin): (a) files of one name are delivered in submission order: the number of last-in-first-out stages between the
parser's append order and the delivery is even; (b) a part's content is what precedes the next delimiter minus exactly the CRLF
that belongs to the delimiter, and that CRLF is verified; (c) the empty-file convention; (d) a value of the wrong kind is an
error in every deserialize_* of the field deserializer; (e) the part-header literals. Panic/unsafe clauses: C08."""
import re

from .lib import decision, guards, paths
from .lib.mir import AnchorLost

CONFIGS_QUICK = ["A", "R"]
CONFIGS_THOROUGH = ["A", "R"]
TECHNIQUE = "order-parity rule over the container disciplines (push/pop sites) of the multipart parser and its deserializers, extent pairing of the content slice with the verified delimiter CRLF, decision tables of the field deserializer, literal table of the part headers (built MIR)"
LEVEL_TEXT = ('Decides clauses C10-a..e: the parser appends parts in submission order and every later stage takes elements either first-in-first-out or last-in-first'
              '-out; the number of last-in-first-out stages between the parse and the delivery of the files of one name is even (today two: Multipart::next pops the '
              'part list, the file sequence pops the group), and no stage reverses, sorts or removes from the front; the content of a part is the bytes before the ne'
              'xt delimiter minus exactly the length of the CRLF constant, the removed bytes are compared with that constant on the success path, and the delimiter i'
              'tself is consumed next; a file part with empty filename and empty content is delivered as an empty file list (both tests, nothing else); each deserial'
              'ize_* method of the field deserializer serves its own kind and answers an error for the other kind (text asked as file/sequence, files asked as text, '
              'several files asked as one); the part-header names and the Content-Disposition literals are the RFC 7578 ones, names compared case-insensitively; the '
              "name, filename and media type handed to a part are defined (or reset) inside the iteration of the part loop that reads that part's headers, so no valu"
              'e carries over from an earlier part. C10-g: every success answer of Multipart::parse is dominated by the loop that reads the parts (no early empty for'
              'm). Decides these clauses, not byte-exact decoding for all forms.')

MP = r"^ohkami_lib::serde_multipart::parse::"
FRONT_OR_REORDER = ("reverse", "rev", "remove", "insert", "swap_remove", "sort", "sort_by", "sort_unstable", "sort_by_key", "rotate_left", "rotate_right", "drain", "split_off", "swap", "retain", "dedup", "truncate")


def run(ck, progs):
    ck.explanation = LEVEL_TEXT
    ck.assumptions = ["A2: serde visitors call SeqAccess::next_element_seed until it answers None, in order", "A5"]
    for cfg, prog in progs.items():
        ck.config = cfg
        ck.guard("C10-a ORDER submission order", lambda: c10a(ck, prog))
        ck.guard("C10-b PAIR delimiter CRLF", lambda: c10b(ck, prog))
        ck.guard("C10-c DECISION empty file", lambda: c10c(ck, prog))
        ck.guard("C10-d DECISION kind mismatch", lambda: c10d(ck, prog))
        ck.guard("C10-e TABLE part headers", lambda: c10e(ck, prog))
        ck.guard("C10-f ORDER per-part header state", lambda: c10f(ck, prog))
        ck.guard("C10-g MUSTPASS no form answered unparsed", lambda: c10g(ck, prog))
    ck.config = None


def vec_calls(f, rx):
    """calls on a Vec whose receiver description matches rx: [(call, description)]"""
    out = []
    for c in f.calls():
        if not c.args or not re.search(r"^alloc::vec::Vec::<T(, A)?>::|^core::slice::<impl \[T\]>::|Iterator", c.callee or ""):
            continue
        d = decision.describe_deep(f, c.args[0], 4)
        if re.search(rx, d):
            out.append((c, d))
    return out


def discipline(f, takes):
    """how a stage takes elements from its Vec: 'LIFO' (pop), 'FIFO' (remove(0) / pop_front), else None"""
    kinds = set()
    for c in takes:
        if c.name in ("pop", "pop_if"):
            kinds.add("LIFO")
        elif c.name == "pop_front":
            kinds.add("FIFO")
        elif c.name == "remove" and len(c.args) > 1 and f.origin(c.args[1]) and f.origin(c.args[1])[-1][0] == "const" and guards.const_int(f.origin(c.args[1])[-1][1]) == 0:
            kinds.add("FIFO")
        else:
            kinds.add("?" + c.name)
    return tuple(kinds)[0] if len(kinds) == 1 else None


def c10a(ck, prog):
    R = "C10-a ORDER submission order"
    parse = prog.one(MP + r"Multipart::<'de>::parse$")
    nxt = prog.one(MP + r"Multipart::<'de>::next$")
    seq = prog.one(r"SeqAccess<'de> for ohkami_lib::serde_multipart::parse::_::DeserializeFilesOrField<'de>>::next_element_seed$|DeserializeFilesOrField<'de> as serde_core::de::SeqAccess<'de>>::next_element_seed$")
    lifo = 0
    # stage 0: the parser appends
    pushes = [c for c in parse.calls() if c.name == "push" and re.search(r"^alloc::vec::Vec", c.callee or "")]
    bad = [c.name for c in parse.calls() if c.name in FRONT_OR_REORDER and re.search(r"^alloc::vec::Vec|^core::slice::<impl \[T\]>::", c.callee or "")]
    ok = len(pushes) == 1 and not bad
    ck.ob(R, "parse:appends-in-order", ok, parse.loc(pushes[0].sp if pushes else None), "" if ok else "Multipart::parse does not simply append each part (%d push site(s), reordering calls %r)" % (len(pushes), bad), how="parts.push(part) once per part, no reordering")
    # stage 1: Multipart::next takes parts from the list
    takes = [(c, d) for c, d in vec_calls(nxt, r"arg1\.0") if c.name in ("pop", "pop_if", "remove", "swap_remove", "drain", "pop_front") or c.name in FRONT_OR_REORDER]
    disc = discipline(nxt, [c for c, _ in takes])
    ok = disc in ("LIFO", "FIFO")
    if disc == "LIFO":
        lifo += 1
    ck.ob(R, "next:takes-parts-by", ok, nxt.loc(takes[0][0].sp if takes else None), "" if ok else "Multipart::next takes parts with %r: the order discipline of this stage is not established" % sorted({c.name for c, _ in takes}),
          how="parts are taken %s" % disc)
    # stage 2: the group of same-name files is built by appending in the order taken
    gp = [c for c in nxt.calls() if c.name == "push" and re.search(r"^alloc::vec::Vec", c.callee or "") and not re.search(r"arg1\.0", decision.describe_deep(nxt, c.args[0], 4))]
    gbad = [c.name for c in nxt.calls() if c.name in FRONT_OR_REORDER and re.search(r"^alloc::vec::Vec|^core::slice::<impl \[T\]>::", c.callee or "")]
    ok = len(gp) == 1 and not gbad and re.search(r"\bpop(_if)?\(", decision.describe_deep(nxt, gp[0].args[1], 4)) is not None
    ck.ob(R, "next:group-appends", ok, nxt.loc(gp[0].sp if gp else None), "" if ok else "the group of same-name files is not built by appending the popped files (%d push site(s), reordering calls %r)" % (len(gp), gbad), how="files = vec![first]; files.push(popped)")
    # stage 3: delivery of the group
    stakes = [c for c in seq.calls() if re.search(r"^alloc::vec::Vec", c.callee or "") and (c.name in ("pop", "remove", "swap_remove", "drain") or c.name in FRONT_OR_REORDER)]
    sdisc = discipline(seq, stakes)
    ok = sdisc in ("LIFO", "FIFO")
    if sdisc == "LIFO":
        lifo += 1
    ck.ob(R, "sequence:takes-files-by", ok, seq.loc(stakes[0].sp if stakes else None), "" if ok else "the file sequence takes its elements with %r: the order discipline of this stage is not established" % sorted({c.name for c in stakes}),
          how="files are taken %s" % sdisc)
    ok = lifo % 2 == 0
    ck.ob(R, "parity:even-number-of-LIFO-stages", ok, seq.loc(None),
          "" if ok else "between the parser's append order and the delivery there are %d last-in-first-out stage(s): several files under one name are delivered in reverse submission order" % lifo,
          how="%d last-in-first-out stages (Multipart::next, file sequence): submission order is restored" % lifo)


def c10b(ck, prog):
    R = "C10-b PAIR delimiter CRLF"
    parse = prog.one(MP + r"Multipart::<'de>::parse$")
    parse = prog.inlined(parse, 2, r"Reader::<'r>::read_until$")      # the content step may be a local helper
    bodies = [parse] + prog.descendants(parse.key)
    frp = [(g, c) for g in bodies for c in g.calls() if c.name == "from_raw_parts"]
    pushes_ = [c for c in parse.calls() if c.name == "push" and re.search(r"^alloc::vec::Vec", c.callee or "")]
    ss = [c for c in parse.calls() if c.name == "strip_suffix" and re.search(r"^core::slice::<impl \[T\]>::strip_suffix$", c.callee or "")]
    if not frp and len(ss) == 1:
        # equivalent safe form: content = read_until(boundary).strip_suffix(CRLF)?  -- std removes exactly the suffix and
        # answers None unless the slice ends with it
        c = ss[0]
        recv = paths.root_call(parse, c.args[0])
        suf = (parse.const_args(c) + [None, None])[1]
        ok = recv is not None and recv.name == "read_until" and "read_until(" in decision.describe_deep(parse, recv.args[1], 3) and suf is not None and suf.get("s") == "\r\n"
        ck.ob(R, "content:extent", ok, parse.loc(c.sp), "" if ok else "the content is `%s`, expected read_until(boundary).strip_suffix(CRLF)" % decision.describe_deep(parse, ["c", c.dest], 4)[:80],
              how="content = read_until(boundary).strip_suffix(b\"\\r\\n\")")
        # the part is accepted only with the Some answer of strip_suffix, and its content is that payload
        def under_some(bb):
            for fa in guards.facts_at(parse, prog, bb):
                st_ = getattr(fa, "steps", None)
                if fa.kind != "variant" or fa.allowed not in ({"Some"}, {"Ok"}, {"Continue"}) or not st_ or st_[-1][0] != "call":
                    continue
                cc = st_[-1][1]
                if cc.bb == c.bb:
                    return True
                # `strip_suffix(..).ok_or_else(..)?`: Ok / Continue of a call fed by it
                x, hops = cc, 0
                while x is not None and x.args and hops < 4:
                    x = paths.root_call(parse, x.args[0])
                    hops += 1
                    if x is not None and x.bb == c.bb:
                        return True
            return False
        # a spliced-in helper returns through several sites: the part is pushed only after the one that answers Ok(content)
        anchors = lambda bb: [bb] + paths.consistent_def_blocks(parse, prog, bb)
        ok = bool(pushes_) and all(any(under_some(x) for x in anchors(p.bb)) for p in pushes_)
        ck.ob(R, "delimiter-CRLF:verified", ok, parse.loc(c.sp), "" if ok else "a part is accepted on a path where strip_suffix(CRLF) did not answer Some", how="part pushed only under the Some answer of strip_suffix(CRLF)")
        ru = [x for x in parse.calls() if x.name == "read_until" and "read_until(" in decision.describe_deep(parse, x.args[1], 3)]
        co = [x for x in parse.calls() if x.name == "consume" and "read_until(" in decision.describe_deep(parse, x.args[1], 3)]
        ok = len(ru) == 1 and len(co) == 1 and parse.dominates(ru[0].bb, co[0].bb) and all(any(parse.dominates(co[0].bb, x) for x in anchors(p.bb)) for p in pushes_)
        ck.ob(R, "delimiter:consumed", ok, parse.loc(co[0].sp if co else None), "" if ok else "the delimiter is not consumed after the content was cut in front of it", how="read_until(boundary) ; consume(boundary) ; push(part)")
        return
    if len(frp) != 2:
        raise AnchorLost("expected the two from_raw_parts of the content/CRLF split in Multipart::parse (or one strip_suffix(CRLF)), found %d / %d" % (len(frp), len(ss)))
    g = frp[0][0]
    descs = [(decision.describe_deep(g, c.args[0], 5), decision.describe_deep(g, c.args[1], 6)) for _, c in frp]
    # first: (ptr, len - CRLF.len()); second: (ptr + mid, CRLF.len())
    crlf_len = r"(len\(const:CRLF\)|len\(const '.r.n'\)|const 2)"

    def total_len(g, txt):
        # `len(x)` directly, or a captured variable of the enclosing function that holds it
        if re.search(r"^len\(", txt):
            return True
        m = re.match(r"arg1\.\^\*?(\w+)$", txt)
        if m:
            for name, places in parse.vars.items():
                if name == m.group(1):
                    for pl in places:
                        if "len(" in decision.describe_deep(parse, ["c", pl], 3):
                            return True
        return False

    first, second = [], []
    for (gg, c), d in zip(frp, descs):
        m = re.fullmatch(r"Sub(?:WithOverflow|Unchecked)?\((.+),%s\)(?:\.0)?" % crlf_len, d[1])
        if re.search(r"^as_ptr\(", d[0]) and m and total_len(gg, m.group(1)):
            first.append(d)
        if re.search(r"^add\(as_ptr\(", d[0]) and re.fullmatch(crlf_len, d[1]) and re.search(r"Sub(?:WithOverflow|Unchecked)?\(.+,%s\)" % crlf_len, d[0]):
            second.append(d)
    ok = len(first) == 1 and len(second) == 1
    ck.ob(R, "content:extent", ok, g.loc(frp[0][1].sp),
          "" if ok else "the content / delimiter-CRLF split is %r, expected (ptr, len - CRLF.len()) and (ptr + mid, CRLF.len()): the content would keep or lose bytes at the delimiter" % (descs,),
          how="content = before_boundary[..len - 2], tail = before_boundary[len - 2..]")
    # the removed tail is compared with CRLF before the part is accepted: either a comparison call with the constant, or the
    # lowered constant pattern (length == 2, byte 0 == 13, byte 1 == 10 on the second component of the split)
    pushes = [c for c in parse.calls() if c.name == "push" and re.search(r"^alloc::vec::Vec", c.callee or "")]

    def verified(bb):
        got = set()
        for fa in guards.facts_at(parse, prog, bb):
            if fa.kind == "boolcall" and fa.truth == (fa.call.name != "ne") and any("CRLF" in decision.describe_deep(parse, a, 3) or "'\\r\\n'" in decision.describe_deep(parse, a, 3) for a in fa.call.args) \
                    and any("then(" in decision.describe_deep(parse, a, 6) for a in fa.call.args):
                return True
            if fa.kind == "int" and fa.values is not None and len(fa.values) == 1:
                info = parse.switch_info(fa.sw_bb)
                t = parse.blocks[fa.sw_bb]["t"]
                pl = t["discr"][1] if t["discr"][0] in ("c", "m") else None
                projs = pl[1] if pl else []
                if any(pr[0] == "f" and pr[1] == 1 for pr in projs) and any(pr[0] == "dc" and pr[1] == "Some" for pr in projs):
                    for pr in projs:
                        if pr[0] == "ci" and not pr[3]:
                            got.add((pr[1], tuple(fa.values)[0]))
        return {(0, 13), (1, 10)} <= got

    ok = bool(pushes) and all(verified(p.bb) for p in pushes)
    ck.ob(R, "delimiter-CRLF:verified", ok, parse.loc(pushes[0].sp if pushes else None),
          "" if ok else "a part is accepted without the two bytes removed from its content having been compared with CR LF: content ending in other bytes would silently lose them",
          how="part pushed only under `tail == CRLF` (constant pattern: byte 0 == 13, byte 1 == 10)")
    # the delimiter is consumed right after
    ru = [c for c in parse.calls() if c.name == "read_until" and "read_until(" in decision.describe_deep(parse, c.args[1], 3)]
    co = [c for c in parse.calls() if c.name == "consume" and "read_until(" in decision.describe_deep(parse, c.args[1], 3)]
    ok = len(ru) == 1 and len(co) == 1 and parse.dominates(ru[0].bb, co[0].bb) and all(parse.dominates(co[0].bb, p.bb) for p in pushes)
    ck.ob(R, "delimiter:consumed", ok, parse.loc(co[0].sp if co else None), "" if ok else "the delimiter is not consumed after the content was cut in front of it", how="read_until(boundary) ; consume(boundary) ; push(part)")


def c10c(ck, prog):
    R = "C10-c DECISION empty file"
    nxt = prog.one(MP + r"Multipart::<'de>::next$")
    empties = [c for c in nxt.calls() if c.name == "new" and re.search(r"^alloc::vec::Vec::<T>::new$", c.callee or "")]
    if len(empties) != 1:
        raise AnchorLost("Multipart::next does not build exactly one empty file list (%d)" % len(empties))
    e = empties[0]
    conds = []
    for fa in guards.facts_at(nxt, prog, e.bb):
        if fa.kind == "boolcall":
            conds.append(("" if fa.truth else "!") + fa.call.name + "(" + decision.describe_deep(nxt, fa.call.args[0], 5).rsplit(".", 1)[-1] + ")")
        elif fa.kind == "cmp":
            conds.append("cmp")
    ok = sorted(conds) == ["is_empty(content)", "is_empty(filename)"]
    ck.ob(R, "empty-list-iff-no-name-and-no-content", ok, nxt.loc(e.sp),
          "" if ok else "the empty file list is delivered under %r, expected exactly `filename.is_empty() && content.is_empty()` (an empty file that has a name is a file; a nameless part with content is a file)" % sorted(conds),
          how="Files(Vec::new()) iff filename.is_empty() && content.is_empty()")


def c10d(ck, prog):
    R = "C10-d DECISION kind mismatch"
    DF = r"DeserializeFilesOrField<'de> as serde_core::de::Deserializer<'de>>::"
    expect = {
        # method: {kind: what the arm must do}
        "deserialize_str": {"Text": r"visit_borrowed_str|visit_str", "Files": r"^Err"},
        "deserialize_map": {"Files": r"visit_map|^Err", "Text": r"^Err"},
        "deserialize_seq": {"Files": r"visit_seq", "Text": r"^Err"},
    }
    n = 0
    for m, want in expect.items():
        f = prog.one(DF + m + "$")
        outcomes = {}
        for bb, kind, pl in paths.ret_sites(f):
            fk = None
            for fa in guards.facts_at(f, prog, bb):
                if fa.kind == "variant" and fa.allowed and len(fa.allowed) == 1 and tuple(fa.allowed)[0] in ("Text", "Files"):
                    fk = tuple(fa.allowed)[0]
            if kind == "call":
                what = pl.name
            elif kind == "Err":
                what = "Err"
            else:
                what = kind
            outcomes.setdefault(fk, set()).add(what)
        for k, rx in want.items():
            n += 1
            got = outcomes.get(k, set())
            ok = bool(got) and all(re.search(rx, w) for w in got)
            ck.ob(R, "%s:%s" % (m, k), ok, f.loc(None), "" if ok else "DeserializeFilesOrField::%s answers %r for a %s value, expected /%s/: a value of the wrong kind must be an error, never a wrong value" % (m, sorted(got), k, rx),
                  how="%s => %s" % (k, "/".join(sorted(got))))
    # several files asked as one file: only a count of exactly one reaches visit_map
    f = prog.one(DF + "deserialize_map$")
    vm = [c for c in f.calls() if c.name == "visit_map"]
    ok = len(vm) == 1 and file_count(prog, f, vm[0].bb) == "one"
    ck.ob(R, "deserialize_map:exactly-one-file", ok, f.loc(vm[0].sp if vm else None), "" if ok else "a single File is produced without the test that exactly one file was submitted under the name", how="visit_map only under files.len() == 1 (or pop() == Some and then is_empty())")
    n += 1
    # option: 0 => none, 1 => some, more => error
    f = prog.one(DF + "deserialize_option$")
    tab = {}
    for c in f.calls():
        if c.name in ("visit_none", "visit_some"):
            vals = None
            kind = None
            for fa in guards.facts_at(f, prog, c.bb):
                if fa.kind == "int" and fa.values is not None:
                    vals = tuple(sorted(fa.values))
                if fa.kind == "int" and fa.values is None and fa.excluded:
                    vals = ("not",) + tuple(sorted(fa.excluded))
                if fa.kind == "variant" and fa.allowed and tuple(fa.allowed)[0] in ("Text", "Files") and len(fa.allowed) == 1:
                    kind = tuple(fa.allowed)[0]
            if kind == "Files":
                vals = file_count(prog, f, c.bb)
            tab[(kind, c.name)] = vals
    ok = tab.get(("Files", "visit_none")) == "zero" and tab.get(("Files", "visit_some")) == "one" and tab.get(("Text", "visit_none")) == (0,) and (tab.get(("Text", "visit_some")) or ("",))[0] == "not"
    ck.ob(R, "deserialize_option:table", ok, f.loc(None), "" if ok else "deserialize_option decides %r, expected files: 0 => none, 1 => some (more => error); text: empty => none, else some" % tab, how="Files: 0 => None, exactly 1 => Some, else Err; Text: len 0 => None, _ => Some")
    n += 1
    ck.floor(R, "kind decisions", n, 8)


def file_count(prog, f, bb):
    """what the branch facts at `bb` establish about the number of files held by the deserializer's list:
    'one'  -- `len() == 1`, or `pop()` answered Some and an `is_empty()` evaluated after that pop answered true;
    'zero' -- `len() == 0`, `pop()` answered None, or `is_empty()` evaluated before any pop answered true; else None"""
    facts = guards.facts_at(f, prog, bb)
    for fa in facts:
        if fa.kind == "int" and fa.values is not None and set(fa.values) == {1}:
            return "one"
        if fa.kind == "int" and fa.values is not None and set(fa.values) == {0}:
            return "zero"
    if guards.verify(prog, f, bb, None, {"kind": "cmp", "op": "Eq", "const": 1, "lhs_len": True})[0]:
        return "one"
    if guards.verify(prog, f, bb, None, {"kind": "cmp", "op": "Eq", "const": 0, "lhs_len": True})[0]:
        return "zero"
    pops = {}
    for fa in facts:
        if fa.kind == "variant" and fa.allowed and len(fa.allowed) == 1 and fa.steps:
            calls = [s_[1] for s_ in fa.steps if s_[0] == "call"]
            if calls and calls[-1].name == "pop" and re.search(r"Vec::<T, A>::pop$", calls[-1].callee or ""):
                pops[tuple(fa.allowed)[0]] = calls[-1]
    if "None" in pops:
        return "zero"
    empties = [fa.call for fa in facts if fa.kind == "boolcall" and fa.truth and fa.call.name == "is_empty" and re.search(r"Vec::<T, A>::is_empty$", fa.call.callee or "")]
    allpops = [c for c in f.calls() if re.search(r"Vec::<T, A>::pop$", c.callee or "")]
    if "Some" in pops and any(f.dominates(pops["Some"].bb, e.bb) and e.bb != pops["Some"].bb for e in empties):
        return "one"
    if "Some" not in pops and any(not any(f.dominates(pc.bb, e.bb) for pc in allpops) for e in empties):
        return "zero"
    return None


def c10e(ck, prog):
    R = "C10-e TABLE part headers"
    parse = prog.one(MP + r"Multipart::<'de>::parse$")
    parse = prog.inlined(parse, 2, r"read_kebab$|read_quoted_by$")      # the header loop may be a helper returning (name, filename, mimetype)
    ci = [(parse.const_args(c) + [None, None])[1] for c in parse.calls() if c.name == "eq_ignore_ascii_case"]
    names = sorted((a or {}).get("s") or "" for a in ci)
    ok = names == ["Content-Disposition", "Content-Type"]
    ck.ob(R, "header-names", ok, parse.loc(None), "" if ok else "part headers are recognised as %r (case-insensitively), expected Content-Disposition and Content-Type" % names, how="eq_ignore_ascii_case(\"Content-Disposition\" | \"Content-Type\")")
    lits = [((parse.const_args(c) + [None, None])[1] or {}).get("s") for c in parse.calls() if c.name == "consume"]
    lits = [x for x in lits if x is not None]
    want = ["\r\n", ": ", ": form-data; name=", "; ", "filename=", "\r\n"]
    ok = lits == want
    ck.ob(R, "disposition-literals", ok, parse.loc(None), "" if ok else "the part-header grammar consumes %r, expected %r" % (lits, want), how="CRLF | `: ` | `: form-data; name=` | `; ` | `filename=` | CRLF")
    q = [c for c in parse.calls() if c.name == "read_quoted_by"]
    qa = [[(a or {}).get("v") for a in (parse.const_args(c) + [None, None, None])[1:3]] for c in q]
    ok = len(q) == 2 and all(x == ["34", "34"] or x == [34, 34] for x in qa)
    ck.ob(R, "quoted-strings", ok, parse.loc(None), "" if ok else "name / filename are read with read_quoted_by%r, expected two reads between double quotes" % qa, how="read_quoted_by(b'\"', b'\"') for name and filename")
    # first line = delimiter, `--` after a delimiter ends the body
    one = [c for c in parse.calls() if c.name == "consume_oneof"]
    ok = len(one) == 1
    ck.ob(R, "after-delimiter", ok, parse.loc(None), "" if ok else "after a delimiter the parser does not choose between CRLF (another part) and `--` (end)", how="consume_oneof([CRLF, \"--\"])", nontrivial=False)


def c10f(ck, prog):
    """`each part decodes to exactly its own name, filename and media type`: the values read from a part's headers are state
    of that part. The variables that feed Part::File / Part::Text must start fresh in every iteration of the part loop: all
    their definitions sit inside the loop body, or they are reset there (`mem::take` / `take()` / `replace`)."""
    R = "C10-f ORDER per-part header state"
    from .lib.bound import natural_loops
    parse = prog.one(MP + r"Multipart::<'de>::parse$")
    f = prog.inlined(parse, 2, r"read_kebab$|eq_ignore_ascii_case$")      # the header loop may be a helper returning the triple
    loops = natural_loops(f)
    n = 0
    for bi in sorted(f.live_blocks()):
        for st in f.blocks[bi]["st"]:
            if not (st["k"] == "=" and st["r"][0] == "agg" and st["r"][1].get("k") == "adt" and re.search(r"serde_multipart::\w+::(_::)?File$|::Part$", st["r"][1].get("adt", ""))):
                continue
            inner = [h for h, body in loops.items() if bi in body]
            if not inner:
                continue
            h = max(inner, key=lambda x: len(loops[x]))      # the part loop: the outermost loop around the construction
            body = loops[h]
            fields = st["r"][1].get("fields") or []
            for i, op in enumerate(st["r"][2]):
                fname = fields[i] if i < len(fields) else str(i)
                if fname not in ("name", "filename", "mimetype") or op[0] not in ("c", "m"):
                    continue
                ost = f.origin(op)
                if not (ost and ost[-1][0] == "multi" and all(pr[0] == "d" for pr in ost[-1][2])):
                    # a value computed in this iteration (the result of a call made in the loop body, e.g. a header-parsing helper)
                    if ost and ost[-1][0] == "call" and ost[-1][1].bb in body:
                        # ... unless the call merely transforms a variable that lives across iterations (`mimetype.trim()`):
                        # follow the call's arguments to the variables they read
                        stale = None
                        todo, seen_c = [ost[-1][1]], set()
                        while todo and stale is None:
                            cc = todo.pop()
                            if cc.bb in seen_c:
                                continue
                            seen_c.add(cc.bb)
                            for a in cc.args:
                                ao = f.origin(a) if a[0] in ("c", "m") else None
                                if not ao:
                                    continue
                                if ao[-1][0] == "call" and ao[-1][1].bb in body:
                                    todo.append(ao[-1][1])
                                elif ao[-1][0] == "multi":
                                    dl = [d for d in f.defs().get(ao[-1][1], []) if not f.is_cleanup(d[0]) and not (d[2] == "assign" and d[3]["p"][1])]
                                    if [d for d in dl if d[0] not in body] and [d for d in dl if d[0] in body] and f.locals[ao[-1][1]] and "Reader" not in f.locals[ao[-1][1]]:
                                        stale = ao[-1][1]
                        n += 1
                        oks = stale is None
                        ck.ob(R, "%s:fresh-per-part" % fname, oks, f.loc(st.get("sp")),
                              "" if oks else "the `%s` handed to a part is computed from a variable that lives across iterations of the part loop (assigned before the loop and again inside it): a part that does not send the header gets a value derived from an earlier part's" % fname,
                              how="`%s` is the result of a call made in this iteration of the part loop" % fname)
                    continue
                l = ost[-1][1]
                n += 1
                defs = [d for d in f.defs().get(l, []) if not f.is_cleanup(d[0]) and not (d[2] == "assign" and d[3]["p"][1])]
                outside = [d for d in defs if d[0] not in body]
                resets = [c for c in f.calls() if c.bb in body and c.name in ("take", "replace", "swap") and any(a[0] in ("c", "m") and (f.origin(a) or [(None,)])[-1][0] != "const" and _refers_to(f, a, l) for a in c.args)]
                ok = not outside or bool(resets)
                ck.ob(R, "%s:fresh-per-part" % fname, ok, f.loc(st.get("sp")),
                      "" if ok else "the `%s` handed to a part is a variable that lives across iterations of the part loop (defined before the loop, never reset in it): a part that does not send the header "
                      "gets the value of an earlier part (`Content-Type` is optional: a file without one would carry the previous part's media type)" % fname,
                      how="`%s` is defined inside the part loop%s" % (fname, " / reset there" if resets else ""))
    ck.floor(R, "header variables feeding the parts", n, 1)


def _refers_to(f, op, local):
    """is the operand a reference to (a projection of) the local?"""
    pl = op[1]
    for _ in range(4):
        if pl[0] == local:
            return True
        sd = f.single_def(pl[0])
        if sd is None or sd[2] != "assign":
            return False
        r = sd[3]["r"]
        if r[0] == "ref":
            pl = r[2]
        elif r[0] == "use" and r[1][0] in ("c", "m"):
            pl = r[1][1]
        else:
            return False
    return pl[0] == local


def c10g(ck, prog):
    """`decodes to exactly the submitted fields`: every success answer of Multipart::parse is the list the part loop filled,
    returned after that loop has run -- no early `Ok(empty list)` decided from the look of the boundary line (a boundary token
    may itself end in `--`) or from any other test made before the parts were read."""
    from .lib.bound import natural_loops
    R = "C10-g MUSTPASS no form answered unparsed"
    fs = [f for f in prog.fns.values() if re.search(r"serde_multipart::parse::Multipart(<'de>)?>?::parse$|serde_multipart::parse::.*Multipart.*::parse$", f.key) and f.name == "parse"]
    if len(fs) != 1:
        raise AnchorLost("Multipart::parse not found (%d)" % len(fs))
    f = fs[0]
    loops = natural_loops(f)
    pushes = [c for c in f.calls() if c.name == "push" and any(c.bb in b for b in loops.values())]
    if not pushes:
        raise AnchorLost("the part loop of Multipart::parse (a push inside a loop) was not found")
    body = max([b for b in loops.values() if pushes[0].bb in b], key=len)
    header = [h for h, b in loops.items() if b is body][0]
    oks = [bb for bb, kind, payload in paths.ret_sites(f) if kind == "Ok"]
    early = [bb for bb in oks if not f.dominates(header, bb)]
    ok = bool(oks) and not early
    ck.ob(R, "parse:success-only-after-the-part-loop", ok, f.loc(None),
          "" if ok else "Multipart::parse can answer Ok without having entered the loop that reads the parts (bb%s): a whole form is then decoded as empty -- Option / Vec fields silently become None / [] -- for inputs that merely look finished (a boundary token ending in `--`)" % early[:3],
          how="%d Ok answer(s), all dominated by the part loop" % len(oks))
